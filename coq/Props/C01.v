(* C01 - No two data of a record variant ever share a byte.
   Statement, `exact`, Print Assumptions; nothing else.  Lemmas are in Truc.Proofs. *)
From Coq Require Import List NArith Lia.
From Truc.Model Require Import Layout Builder.
From Truc.Proofs Require Import Variants BuilderInv LayoutThms.
Import ListNotations.
Open Scope N_scope.

(* For every request history (any number of variants, any subset removed, any order, invalid
   requests included, any size >= 0, any alignment >= 1, any per-variant mix of the four shipped
   strategies), in every variant, the byte ranges [off, off+size) of two distinct data are disjoint.
   (Stronger than the property: zero-size data are covered too.) *)
Theorem C01 : forall h, hist_ok h ->
  forall v a b, In v (b_vs (run h)) -> In a v -> In b v -> a <> b ->
    off (b_ds (run h)) a + size (b_ds (run h)) a <= off (b_ds (run h)) b \/
    off (b_ds (run h)) b + size (b_ds (run h)) b <= off (b_ds (run h)) a.
Proof. exact disjoint_all. Qed.
Print Assumptions C01.

(* non-vacuity: a 4-variant history mixing three strategies, with a removed datum, a zero-size datum
   and a filled gap, meets the hypothesis and produces a 5-datum variant *)
Definition witness_history : list req :=
  [Add 0 0 4 4 false; Add 1 0 4 4 false; Add 2 1 8 8 false; Close SAppend;
   Remove 1%nat; Add 3 2 0 1 false; Close SSimple; Add 4 0 4 4 false; Close SSimple;
   Add 5 3 2 2 false; Close SBasic].
Example C01_nonvacuous :
  hist_ok witness_history /\
  b_vs (run witness_history) = [[0;1;2]; [0;3;2]; [0;4;3;2]; [0;4;3;2;5]]%nat /\
  map d_off (b_ds (run witness_history)) = [0; 4; 8; 8; 4; 16].
Proof.
  split; [|split; vm_compute; reflexivity].
  repeat constructor; simpl; try lia; unfold native; tauto.
Qed.
Print Assumptions C01_nonvacuous.

(* the same history on the model of the code BEFORE the fix "simple strategy must not ignore
   zero-size data": two data of non-zero size overlap (kept as the replay witness of that defect) *)
Definition witness_history_unfixed : list req :=
  [Add 0 0 4 4 false; Add 1 0 4 4 false; Add 2 1 8 8 false; Close SAppend;
   Remove 1%nat; Add 3 2 0 1 false; Close SSimpleUnfixed; Add 4 0 4 4 false; Close SSimpleUnfixed;
   Add 5 3 2 2 false; Close SBasic].
Theorem C01_refuted_unfixed :
  exists v a b, In v (b_vs (run witness_history_unfixed)) /\ In a v /\ In b v /\ a <> b /\
    let ds := b_ds (run witness_history_unfixed) in
    0 < size ds a /\ 0 < size ds b /\ off ds a < off ds b + size ds b /\ off ds b < off ds a + size ds a.
Proof.
  exists [0;5;3;4;2]%nat, 5%nat, 4%nat. vm_compute. repeat split; auto; try discriminate.
Qed.
Print Assumptions C01_refuted_unfixed.

Check C01 : forall h, hist_ok h ->
  forall v a b, In v (b_vs (run h)) -> In a v -> In b v -> a <> b ->
    off (b_ds (run h)) a + size (b_ds (run h)) a <= off (b_ds (run h)) b \/
    off (b_ds (run h)) b + size (b_ds (run h)) b <= off (b_ds (run h)) a.
