(* C07 - Generated code only touches storage it owns, aligned, with the right type.   PARTIAL (as C04).
   On the abstract machine every access is checked: bounds against the capacity, alignment of typed loads
   and references against the alignment class of the buffer (A for a record struct, 1 for the local
   RecordMaybeUninit of constructors and conversions) and the offset, presence of an owned value of that
   very type for droppable loads, no store onto an owned droppable value, stores only through a unique
   pointer and by alignment-requiring means only when the destination is aligned.  Any breach is a Fault.
   The theorems of C04, C05, C06 all conclude `= Ok ...`: none of the generated operations faults, for all
   definitions / variants with layout_ok, all capacities >= the published one, all records that hold a
   variant.  Restated here; the base address of a record (stack / heap / vector element) being a multiple
   of A is rustc's and the allocator's: observed by E3 (addresses of every reference + runtime hooks). *)
From Coq Require Import List NArith Permutation.
From Truc.Model Require Import Layout Builder Ir Gen Exec Ops.
From Truc.Proofs Require Import ExecP Holds Life Chain ChainU.
From Truc.Current Require Runtime.
Import ListNotations.

Section C07.
Variable ds : defs.
Variable TI : nat -> tinfo.
Variable rt : runtime.
Variables (A cap : N).
Hypothesis RT : rt_ok rt = true.
Variable data : list nat.
Hypothesis L : layout_ok ds TI A cap data.

Theorem C07_no_fault : forall v vals b i m x, holds ds TI cap A data vals b -> In i data ->
  (exists r, op_new ds TI rt A cap v data vals = Ok r) /\
  (exists r, op_new_uninit ds TI rt A cap v data vals = Ok r) /\
  (exists r, op_get ds TI rt b i m = Ok r) /\
  (exists r, op_set ds TI rt b i x = Ok r) /\
  (exists r, op_unpack ds TI rt A cap v data b = Ok r) /\
  (exists r, op_drop ds TI rt A cap v data b = Ok r).
Proof.
  intros v vals b i m x H Hi. repeat split.
  - destruct (new_holds ds TI rt A cap RT data L v vals) as (r & E & _). eauto.
  - destruct (new_uninit_holds ds TI rt A cap RT data L v vals) as (r & E & _). eauto.
  - rewrite (get_holds ds TI rt A cap RT data L vals b i m H Hi). eauto.
  - destruct (set_holds ds TI rt A cap RT data L vals b i x H Hi) as (r & E & _). eauto.
  - rewrite (unpack_holds ds TI rt A cap data L v vals b H). eauto.
  - rewrite (drop_holds ds TI rt A cap data L v vals b H). eauto.
Qed.
End C07.
Print Assumptions C07_no_fault.

(* conversions: see C05 (the statement there concludes `= Ok`).  And over a whole life - creation in any
   variant, any number of conversions (complete forms), any reads and writes in between, the final Drop -
   no access of any step is a breach: *)
Theorem C07_whole_life_no_fault : forall ds TI rt A cap, rt_ok rt = true ->
  forall (stages : list stage) P vals b v,
  layout_ok ds TI A cap P -> chain_ok ds TI A cap P stages -> holds ds TI cap A P vals b ->
  layout_ok ds TI A cap (last_data P stages) ->
  exists bf d r dropped, chain_run ds TI rt A cap b stages = Ok (bf, d, r) /\
                         op_drop ds TI rt A cap v (last_data P stages) bf = Ok (ONone, dropped).
Proof.
  intros ds TI rt A cap RT stages P vals b v LP Hc H LL.
  destruct (chain_then_drop ds TI rt A cap RT stages P vals b v LP Hc H LL) as (bf & d & r & dropped & E1 & E2 & _).
  eauto 6.
Qed.
Print Assumptions C07_whole_life_no_fault.

(* ... the same with uninit conversions followed by the writes of the fields left uninitialised (ChainU.v) *)
Theorem C07_whole_life_uninit_no_fault : forall ds TI rt A cap, rt_ok rt = true ->
  forall (stages : list ustage) P vals b v,
  layout_ok ds TI A cap P -> uchain_ok ds TI A cap P stages -> holds ds TI cap A P vals b ->
  layout_ok ds TI A cap (ulast_data P stages) ->
  exists bf d r dropped, uchain_run ds TI rt A cap b stages = Ok (bf, d, r) /\
                         op_drop ds TI rt A cap v (ulast_data P stages) bf = Ok (ONone, dropped).
Proof.
  intros ds TI rt A cap RT stages P vals b v LP Hc H LL.
  destruct (uchain_then_drop ds TI rt A cap RT stages P vals b v LP Hc H LL) as (bf & d & r & dropped & E1 & E2 & _).
  eauto 6.
Qed.
Print Assumptions C07_whole_life_uninit_no_fault.

(* ... and from a request history (LinkChain.v): over all the variants of the definition the builder produced, with the
   stages read off its consecutive variants, no generated operation of the whole life reaches a Fault *)
From Truc.Proofs Require Import BuilderInv LayoutThms Link LinkChain.
Theorem C07_life_from_history_no_fault : forall h TI rt cap mx, hist_ok h -> pow2_hist h -> rt_ok rt = true ->
  let b := run h in let ds := b_ds b in let A := max_type_align (ds, b_vs b) in
  (forall v i, In v (b_vs b) -> In i v ->
     ti_size (TI (d_ty (getd ds i))) = d_size (getd ds i) /\ ti_align (TI (d_ty (getd ds i))) = d_align (getd ds i)) ->
  max_size (ds, b_vs b) = Some mx -> (mx <= cap)%N ->
  (forall v, In v (b_vs b) -> forall i j, In i v -> In j v -> i <> j -> Gen.ty ds i = Gen.ty ds j ->
     d_size (getd ds i) = 0%N -> Gen.of ds i <> Gen.of ds j) ->
  forall P0 rest stages vals v0 v,
  b_vs b = P0 :: rest -> stages_follow h TI (b_vs b) stages ->
  exists r bf d back dropped,
    op_new ds TI rt A cap v0 P0 vals = Ok (ORecord r, []) /\
    uchain_run ds TI rt A cap r stages = Ok (bf, d, back) /\
    op_drop ds TI rt A cap v (last (b_vs b) P0) bf = Ok (ONone, dropped).
Proof.
  intros h TI rt cap mx Hh Hp RT b ds A HTI Hm Hcap Hz P0 rest stages vals v0 v Evs Hf.
  destruct (life_from_history h Hh Hp TI HTI cap (ex_intro _ mx (conj Hm Hcap)) Hz rt RT P0 rest stages vals v0 v Evs Hf)
    as (r & bf & d & back & dropped & E0 & E1 & E2 & _).
  exists r, bf, d, back, dropped. auto.
Qed.
Print Assumptions C07_life_from_history_no_fault.

Theorem C07_current : rt_ok Runtime.exec_rt = true.
Proof. reflexivity. Qed.

(* the tree before the fix of data.rs: an alignment-requiring store into the byte-aligned local buffer,
   through a pointer derived from a shared borrow *)
Definition ex_ds : defs := [mkDatum 0 1 8 8 false 0].
Definition ex_ti (t : nat) : tinfo := mkTi 8 8 false.
Example C07_refuted_unfixed :
  op_new ex_ds ex_ti rt_unfixed 8 8 0 [0%nat] (fun _ => 7%nat) = Fault Misaligned /\
  op_new ex_ds ex_ti (mkRt false false true) 8 8 0 [0%nat] (fun _ => 7%nat) = Fault ReadOnlyStore /\
  (exists r, op_new ex_ds ex_ti rt_fixed 8 8 0 [0%nat] (fun _ => 7%nat) = Ok r).
Proof. repeat split; vm_compute; eauto. Qed.
