(* C09 - A failing or panicking converter loses nothing and frees everything. *)
From Coq Require Import List NArith.
From Truc.Model Require Import VecConv.
From Truc.Proofs Require Import VecConvP VecConvThms.
From Truc.Current Require Runtime.
Import ListNotations.

Section C09.
Variables (T U E P St : Type).
Variable conv : St -> T -> option U -> St * option U * outcome U E P.

(* If the run fails, the input splits as pre ++ t :: r where the run over `pre` alone succeeds with
   outputs `outs_pre`, the call on `t` is the one that returned Err e / panicked with p, and after that
   call the function does exactly this and nothing else: it drops every output currently kept (outs_pre,
   with the last one as modified by the failing call) once, drops every remaining input `r` once,
   releases the buffer, and hands back that very e / p.  No converter call follows the failing one.
   (`t` itself was moved into the converter: it is the converter's to drop.)  Together with
   C08_success for `pre`, every input element is accounted for exactly once. *)
Theorem C09 : forall rest outs s log f log',
  spec T U E P St conv rest outs s log = (Failed f, log') ->
  exists pre t r outs_pre s_pre log_pre s1 prev',
    rest = pre ++ t :: r /\
    spec T U E P St conv pre outs s log = (Done outs_pre s_pre, log_pre) /\
    ((exists e, conv s_pre t (last_opt U outs_pre) = (s1, prev', Err e) /\ f = FErr e) \/
     (exists p, conv s_pre t (last_opt U outs_pre) = (s1, prev', Panicked p) /\ f = FPanic p)) /\
    log' = log_pre ++ [Call t (last_opt U outs_pre)] ++ map (@DropU T U) (kept U outs_pre prev')
                   ++ map (@DropT T U) r ++ [FreeBuf].
Proof. exact (spec_failed T U E P St conv). Qed.
End C09.
Print Assumptions C09.

(* the facts the refinement (C08_refines) needs, as read from convert.rs on this run: in particular both
   failure arms release the buffer after the clean-up and hand back the converter's own error/payload *)
Theorem C09_current : flags_ok Runtime.vec_flags = true.
Proof. reflexivity. Qed.

(* the code before the fix "vector conversion releases the buffer and keeps the panic payload": the
   buffer is never released and the payload is replaced *)
Definition fail_at_3 (s : nat) (t : nat) (prev : option nat) : nat * option nat * outcome nat nat nat :=
  (s, None, if Nat.eqb t 3 then Panicked 42 else Converted (10 * t)).
Example C09_refuted_unfixed :
  run nat nat nat nat nat fail_at_3 8 8 8 8 flags_unfixed [1; 2; 3; 4] 0
  = (Failed (FPanicReplaced 42), [Call 1 None; Call 2 (Some 10); Call 3 (Some 20); DropU 10; DropU 20; DropT 4]) /\
  run nat nat nat nat nat fail_at_3 8 8 8 8 flags_fixed [1; 2; 3; 4] 0
  = (Failed (FPanic 42), [Call 1 None; Call 2 (Some 10); Call 3 (Some 20); DropU 10; DropU 20; DropT 4; FreeBuf]).
Proof. split; vm_compute; reflexivity. Qed.
Print Assumptions C09_refuted_unfixed.

(* a tree that advances first_ttt only after the converter call would drop the failing element twice *)
Example C09_refuted_late_increment :
  run nat nat nat nat nat fail_at_3 8 8 8 8 (mkFlags true true false true true) [1; 2; 3; 4] 0
  = (Failed (FPanic 42), [Call 1 None; Call 2 (Some 10); Call 3 (Some 20); DropU 10; DropU 20; DropT 3; DropT 4; FreeBuf]).
Proof. vm_compute. reflexivity. Qed.
