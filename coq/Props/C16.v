(* C16 - A cloned record is an equal, independent copy.   PARTIAL (machine model as C04). *)
From Coq Require Import List NArith Arith Permutation.
From Truc.Model Require Import Layout Builder Ir Gen Exec Ops.
From Truc.Proofs Require Import ExecP Holds Life.
Import ListNotations.

Section C16.
Variable ds : defs.
Variable TI : nat -> tinfo.
Variable rt : runtime.
Variables (A cap : N).
Hypothesis RT : rt_ok rt = true.
Variable data : list nat.
Hypothesis L : layout_ok ds TI A cap data.
(* cloning a field value yields a FRESH value (token) with the same payload *)
Variables (clone_val : nat -> nat) (payload : nat -> nat).
Hypothesis clone_payload : forall x, payload (clone_val x) = payload x.

(* the generated clone(): `Self::from(UnpackedRecord { f: *self.f() | self.f().clone(), ... })`:
   may-be-uninit (Copy) fields are copied bit for bit, the others cloned *)
Definition cloned (vals : nat -> nat) : nat -> nat := fun i => if un ds i then vals i else clone_val (vals i).

(* equal: the clone is a record (no fault, nothing destroyed) whose every field has the payload of the source's *)
Theorem C16_equal : forall v vals b, holds ds TI cap A data vals b ->
  exists c, op_new ds TI rt A cap v data (cloned vals) = Ok (ORecord c, []) /\
            holds ds TI cap A data (cloned vals) c /\
            forall i m, In i data ->
              exists x, op_get ds TI rt c i m = Ok (Some x) /\ payload x = payload (vals i).
Proof.
  intros v vals b H. destruct (new_holds ds TI rt A cap RT data L v (cloned vals)) as (c & E & Hc).
  exists c. split; auto. split; auto. intros i m Hi. exists (cloned vals i). split.
  - apply (get_holds ds TI rt A cap RT data L (cloned vals) c i m Hc Hi).
  - unfold cloned. destruct (un ds i); auto.
Qed.

(* independent: a write to the source leaves every field of the clone as it was, and conversely *)
Theorem C16_independent : forall vals b c i x j m,
  holds ds TI cap A data vals b -> holds ds TI cap A data (cloned vals) c -> In i data -> In j data ->
  exists b', op_set ds TI rt b i x = Ok (b', if dr ds TI i then [vals i] else []) /\
             op_get ds TI rt c j m = Ok (Some (cloned vals j)).
Proof.
  intros vals b c i x j m Hb Hc Hi Hj.
  destruct (set_holds ds TI rt A cap RT data L vals b i x Hb Hi) as (b' & E & _).
  exists b'. split; auto. apply (get_holds ds TI rt A cap RT data L (cloned vals) c j m Hc Hj).
Qed.

(* clone_from: every field of the target is assigned, through its mutable accessor, the copy / clone of the
   source's field (`*self.f_mut() = *source.f()` or `self.f_mut().clone_from(source.f())`, in declaration
   order).  Afterwards the target holds exactly the clone's values, nothing faulted, and what was destroyed
   is exactly the target's previous droppable values, each once.  The source is not touched (it is only read). *)
Theorem C16_clone_from : forall svals tvals t, holds ds TI cap A data tvals t ->
  exists t' d, life ds TI rt t (assign_all (cloned svals) data) = Ok (t', d) /\
               holds ds TI cap A data (cloned svals) t' /\
               Permutation d (map tvals (filter (dr ds TI) data)).
Proof. intros svals tvals t H. exact (assign_all_holds ds TI rt A cap RT data L (cloned svals) tvals t H). Qed.
End C16.
Print Assumptions C16_equal.
Print Assumptions C16_clone_from.
Print Assumptions C16_independent.

(* a panic inside a field's clone: the generated clone() builds the field values as temporaries of one struct
   literal, so what unwinding drops is rustc's - executed by E3 with a clone panicking at every tracked field. *)

(* what the generator emits: every field of the variant, in declaration order, copied iff may-be-uninit;
   clone_from treats the same fields the same way (the dumper of engine E2 checks the two bodies agree) *)
Theorem C16_gen : forall ds v data,
  gen_fragment ds v data FClone = [IClone v (map (fun i => (nm ds i, un ds i)) data)].
Proof. reflexivity. Qed.
Print Assumptions C16_gen.

(* ... at any point of a record's life: after ANY chain of conversions (complete or uninit-then-filled forms) with any
   reads and writes in between (Proofs/ChainU.v), the clone of the record reached is a record of the last variant whose
   every field has the payload of the closed-form value `uchain_vals` computed from the requests alone *)
From Truc.Proofs Require Import Chain ChainU.
Theorem C16_clone_after_chain : forall ds TI rt A cap, rt_ok rt = true ->
  forall (clone_val payload : nat -> nat), (forall x, payload (clone_val x) = payload x) ->
  forall (stages : list ustage) P vals b v,
  layout_ok ds TI A cap P -> uchain_ok ds TI A cap P stages -> holds ds TI cap A P vals b ->
  layout_ok ds TI A cap (ulast_data P stages) ->
  exists bf d r c,
    uchain_run ds TI rt A cap b stages = Ok (bf, d, r) /\
    op_new ds TI rt A cap v (ulast_data P stages) (cloned ds clone_val (uchain_vals ds vals stages)) = Ok (ORecord c, []) /\
    forall i m, In i (ulast_data P stages) ->
      exists x, op_get ds TI rt c i m = Ok (Some x) /\ payload x = payload (uchain_vals ds vals stages i).
Proof.
  intros ds TI rt A cap RT clone_val payload Hp stages P vals b v LP Hc H LL.
  destruct (uchain_values ds TI rt A cap RT stages P vals b LP Hc H) as (bf & d & r & E & Hf).
  destruct (C16_equal ds TI rt A cap RT (ulast_data P stages) LL clone_val payload Hp v (uchain_vals ds vals stages) bf Hf)
    as (c & En & _ & Hg).
  exists bf, d, r, c. auto.
Qed.
Print Assumptions C16_clone_after_chain.
