(* C17 - A recorded type name denotes the same type in generated code; table lookups ignore whitespace
   and accept the short and the compiler's spelling.

   Model (Model/TypeName.v): `rty` is the property's grammar (primitives, str, String, Box, Vec, Option,
   Result, tuples, arrays, slices, generic types of the user's crates, at any nesting depth);
   `std_ast t` is the syntax tree of `std::any::type_name::<T>()`, `short_ast t` the spelling a user
   writes; `rewrite` is TypeRewriter (type_name.rs:26-65); `resolve` is name resolution where the
   generated module is compiled (prelude names, primitives, paths through the user's crates;
   `alloc::..` and `core::..` are NOT nameable); `render` prints tokens; `denoted`
   (Model/TypeParse.v) reads tokens with a reference reader of Rust's type syntax - `( T )` is T, `( T , )` the
   one-element tuple - and resolves the tree.  That rustc's own parser agrees with the reference reader is
   rustc's (engine E6 lets rustc decide `fn(T) -> <recorded name>` per type). *)
From Coq Require Import List Bool Arith.
From Truc.Model Require Import TypeName TypeParse.
From Truc.Proofs Require Import TypeNameP TypeParseP.
Import ListNotations.

(* the recorded name resolves, in generated code, to the type it was recorded for - at any depth *)
Theorem C17_denotes : forall t, wf_ty t -> resolve (rewrite (std_ast t)) = Some t.
Proof. exact denotes. Qed.
Print Assumptions C17_denotes.

(* the printed NAME (its tokens, read by the reference reader with enough fuel) denotes the type *)
Theorem C17_name_denotes : forall t, wf_ty t -> exists f0, forall f, f0 <= f -> denoted f (recorded_name t) = Some t.
Proof. exact name_denotes. Qed.
Print Assumptions C17_name_denotes.

(* ... with a computable fuel: the number of nodes of the printed tree (segments and list cells counted) *)
Theorem C17_name_denotes_fuel : forall t, wf_ty t -> denoted (cost (rewrite (std_ast t))) (recorded_name t) = Some t.
Proof. exact name_denotes_cost. Qed.
Print Assumptions C17_name_denotes_fuel.

(* two different types never share a recorded name, hence never a table key *)
Theorem C17_names_distinct : forall t1 t2, wf_ty t1 -> wf_ty t2 -> recorded_name t1 = recorded_name t2 -> t1 = t2.
Proof. exact recorded_name_inj. Qed.
Print Assumptions C17_names_distinct.

(* dropping the comma of a one-element tuple would change what the name denotes *)
Example C17_one_tuple :
  denoted 9 (recorded_name (TTuple [TPrim 0])) = Some (TTuple [TPrim 0]) /\
  denoted 9 [KLParen; KId (IPrim 0); KRParen] = Some (TPrim 0).
Proof. split; reflexivity. Qed.

(* the short spelling and the compiler's fully qualified spelling get the same key *)
Theorem C17_spellings : forall t, key_of (short_ast t) = key_of (std_ast t) /\ key_of (std_ast t) = recorded_name t.
Proof. intros t. unfold key_of, recorded_name. now rewrite spellings. Qed.
Print Assumptions C17_spellings.

(* blanks between (and around) tokens are irrelevant to the key *)
Theorem C17_whitespace : forall toks ws, lex (spaced ws toks) = toks.
Proof. exact whitespace. Qed.
Print Assumptions C17_whitespace.

(* a registered type is found under both spellings, however they are spaced *)
Theorem C17_lookup : forall (I : Type) (tb tb' : table I) t info ws1 ws2,
  table_add tb (recorded_name t) info = Some tb' ->
  table_get tb' (lex (spaced ws1 (key_of (std_ast t)))) = Some info /\
  table_get tb' (lex (spaced ws2 (key_of (short_ast t)))) = Some info.
Proof. intros I tb tb' t info ws1 ws2 H. rewrite !whitespace. exact (table_lookup_spellings tb tb' t info H). Qed.
Print Assumptions C17_lookup.

(* without the rewriting step the compiler's names do not resolve: the theorem is about the rewriter *)
Example C17_rewrite_needed : resolve (std_ast (TVec (TOption TString))) = None.
Proof. reflexivity. Qed.
(* a rewriter that forgets one of the five paths breaks C17_denotes *)
Example C17_nonvacuous :
  let t := TUser [IUser 1; IUser 2] (IUser 12) [TResult (TBox (TSlice (TTuple [TPrim 0; TString]))) (TArray (TOption (TVec TStr)) 3)] in
  wf_ty t /\ resolve (rewrite (std_ast t)) = Some t /\ resolve (std_ast t) = None.
Proof. split; [simpl; intuition eauto|split; reflexivity]. Qed.
Print Assumptions C17_nonvacuous.

(* a user crate may have a module `string` with a type `String` (heapless::string::String ...): its recorded
   name keeps the whole path and is not std's String *)
Example C17_user_string :
  let t := TUser [IUser 1; Istring] IString [] in
  wf_ty t /\ resolve (rewrite (std_ast t)) = Some t /\ recorded_name t <> recorded_name TString.
Proof. split; [simpl; eauto|split; [reflexivity|discriminate]]. Qed.
