(* C19 - The same definition history always generates byte-identical code.   (level: other)
   In Gallina `run` and `gen` are functions, so the statement is immediate FOR THE MODEL and is not sold as
   more.  What decides the property for the implementation is the correspondence: engines E1 / E2 compare the
   implementation with that function in separately started processes (a per-process hash order would disagree
   with the fixed model in one of them), E2 hashes the generated text twice in one process and once more in
   another process, and the translator checks that the anchored files use ordered collections only. *)
From Coq Require Import List NArith.
From Truc.Model Require Import Layout Builder Ir Gen.
From Truc.Current Require Runtime.
Import ListNotations.

Theorem C19_model_is_a_function : forall h1 h2 cfg, h1 = h2 ->
  option_map (fun d => gen d cfg) (build (run h1)) = option_map (fun d => gen d cfg) (build (run h2)).
Proof. intros h1 h2 cfg ->. reflexivity. Qed.
Print Assumptions C19_model_is_a_function.

(* only ordered collections (no HashMap / HashSet) in the strategy and generator sources of this run *)
Theorem C19_current : Runtime.ordered_only = true.
Proof. reflexivity. Qed.
