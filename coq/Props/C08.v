(* C08 - In-place vector conversion returns exactly the converted elements, in place. *)
From Coq Require Import List NArith.
From Truc.Model Require Import VecConv.
From Truc.Proofs Require Import VecConvP VecConvThms.
From Truc.Current Require Runtime.
Import ListNotations.

Section C08.
Variables (T U E P St : Type).
Variable conv : St -> T -> option U -> St * option U * outcome U E P.   (* ANY converter, with its own state *)
Variables (sizeT alT sizeU alU : N).

(* Refinement: with the code facts `fl` in order, the function - one buffer, two indices, explicit
   faults for reading a slot that does not hold an unconsumed input / writing onto a live slot - IS the
   plain left fold `spec` over the input list, for every vector length and every converter: same result,
   same sequence of converter calls (each input once, in order, with the latest output or none), same
   drops, same release of the buffer. *)
Theorem C08_refines : forall fl input s0, flags_ok fl = true ->
  run T U E P St conv sizeT alT sizeU alU fl input s0 = spec_run T U E P St conv sizeT alT sizeU alU input s0.
Proof. exact (run_refines T U E P St conv sizeT alT sizeU alU). Qed.

(* On success the function made exactly one converter call per input element, in input order, and did
   nothing else: no drop, no release (so the result is the input's allocation), and no fault. *)
Theorem C08_success : forall rest outs s log out s' log',
  spec T U E P St conv rest outs s log = (Done out s', log') ->
  exists calls, log' = log ++ calls /\ Forall (is_call T U) calls /\ call_inputs T U calls = rest.
Proof. exact (spec_done T U E P St conv). Qed.

Theorem C08_no_fault : forall rest outs s log r,
  spec T U E P St conv rest outs s log = r -> fst r <> Fault.
Proof. exact (spec_no_fault T U E P St conv). Qed.

Theorem C08_length : forall rest outs s log out s' log',
  spec T U E P St conv rest outs s log = (Done out s', log') -> length out <= length outs + length rest.
Proof. exact (spec_done_length T U E P St conv). Qed.
End C08.
Print Assumptions C08_refines.
Print Assumptions C08_success.
Print Assumptions C08_no_fault.
Print Assumptions C08_length.

(* the facts the theorem needs, as read from truc_runtime/src/convert.rs on this run *)
Theorem C08_current : flags_ok Runtime.vec_flags = true.
Proof. reflexivity. Qed.

(* non-vacuity / sanity: keep the even elements, double them, add each odd element to the previous output *)
Definition demo_conv (s : nat) (t : nat) (prev : option nat) : nat * option nat * outcome nat nat nat :=
  (S s, (if Nat.even t then None else option_map (fun u => u + t) prev),
   if Nat.even t then Converted (2 * t) else Abandoned).
Example C08_nonvacuous :
  run nat nat nat nat nat demo_conv 8 8 8 8 flags_fixed [2; 3; 4; 5; 7; 6] 0
  = (Done [4 + 3; 8 + 5 + 7; 12] 6,
     [Call 2 None; Call 3 (Some 4); Call 4 (Some 7); Call 5 (Some 8); Call 7 (Some 13); Call 6 (Some 20)]).
Proof. vm_compute. reflexivity. Qed.
