(* C08 - In-place vector conversion returns exactly the converted elements, in place. *)
From Coq Require Import List NArith.
From Truc.Model Require Import VecConv.
From Truc.Proofs Require Import VecConvP VecConvThms.
From Truc.Current Require Runtime.
Import ListNotations.

Section C08.
Variables (T U E P St : Type).
Variable conv : St -> T -> option U -> St * option U * outcome U E P.   (* ANY converter, with its own state *)
Variables (sizeT alT sizeU alU : N).

(* Refinement: with the code facts `fl` in order, the function - one buffer, two indices, explicit
   faults for reading a slot that does not hold an unconsumed input / writing onto a live slot - IS the
   plain left fold `spec` over the input list, for every vector length and every converter: same result,
   same sequence of converter calls (each input once, in order, with the latest output or none), same
   drops, same release of the buffer. *)
Theorem C08_refines : forall fl input s0, flags_ok fl = true ->
  run T U E P St conv sizeT alT sizeU alU fl input s0 = spec_run T U E P St conv sizeT alT sizeU alU input s0.
Proof. exact (run_refines T U E P St conv sizeT alT sizeU alU). Qed.

(* On success the function made exactly one converter call per input element, in input order, and did
   nothing else: no drop, no release (so the result is the input's allocation), and no fault. *)
Theorem C08_success : forall rest outs s log out s' log',
  spec T U E P St conv rest outs s log = (Done out s', log') ->
  exists calls, log' = log ++ calls /\ Forall (is_call T U) calls /\ call_inputs T U calls = rest.
Proof. exact (spec_done T U E P St conv). Qed.

Theorem C08_no_fault : forall rest outs s log r,
  spec T U E P St conv rest outs s log = r -> fst r <> Fault.
Proof. exact (spec_no_fault T U E P St conv). Qed.

Theorem C08_length : forall rest outs s log out s' log',
  spec T U E P St conv rest outs s log = (Done out s', log') -> length out <= length outs + length rest.
Proof. exact (spec_done_length T U E P St conv). Qed.
End C08.
Print Assumptions C08_refines.
Print Assumptions C08_success.
Print Assumptions C08_no_fault.
Print Assumptions C08_length.

(* the facts the theorem needs, as read from truc_runtime/src/convert.rs on this run *)
Theorem C08_current : flags_ok Runtime.vec_flags = true.
Proof. reflexivity. Qed.

(* the infallible wrapper convert_vec_in_place: being the hand-over of its input to the function above followed by an
   unwrap (fact `delegates`), it is the same fold - same outputs, same calls, drops and release - for EVERY input,
   the empty one included; and the unwrap never fires, because its converter has no error to return *)
Section C08w.
Variables (T U P St : Type).
Variable conv : St -> T -> option U -> St * option U * outcome U Empty_set P.
Variables (sizeT alT sizeU alU : N).
Theorem C08_wrapper : forall fl input s0, flags_ok fl = true ->
  wrapper T U P St conv sizeT alT sizeU alU true fl input s0 = Some (wrapper_spec T U P St conv sizeT alT sizeU alU input s0).
Proof.
  intros fl input s0 OK. unfold wrapper, wrapper_spec.
  rewrite (run_refines T U Empty_set P St conv sizeT alT sizeU alU fl input s0 OK).
  destruct (spec_run T U Empty_set P St conv sizeT alT sizeU alU input s0) as [r log]. reflexivity.
Qed.
(* ... and it refuses what the function refuses (C10), before any element is touched *)
Theorem C08_wrapper_refuses : forall fl input s0, flags_ok fl = true -> (sizeT <> sizeU \/ alT <> alU) ->
  wrapper T U P St conv sizeT alT sizeU alU true fl input s0 = Some (WRefused, map DropT input ++ [FreeBuf]).
Proof.
  intros fl input s0 OK Hne. rewrite C08_wrapper by exact OK. unfold wrapper_spec, spec_run.
  assert (E : (negb (N.eqb sizeT sizeU) || negb (N.eqb alT alU))%bool = true).
  { destruct Hne as [H|H]; [apply (proj2 (N.eqb_neq _ _)) in H|apply (proj2 (N.eqb_neq _ _)) in H]; rewrite H; simpl; auto.
    destruct (N.eqb sizeT sizeU); reflexivity. }
  rewrite E. reflexivity.
Qed.
End C08w.
Print Assumptions C08_wrapper.
Print Assumptions C08_wrapper_refuses.

Theorem C08_wrapper_current : Runtime.wrapper_delegates = true.
Proof. reflexivity. Qed.

(* an empty input with spare capacity goes through the same path: no call, no drop, no release *)
Example C08_wrapper_empty :
  wrapper nat nat nat nat (fun s t prev => (s, None, Converted t)) 8 8 8 8 true flags_fixed [] 0%nat = Some (WDone [] 0%nat, []).
Proof. vm_compute. reflexivity. Qed.

(* non-vacuity / sanity: keep the even elements, double them, add each odd element to the previous output *)
Definition demo_conv (s : nat) (t : nat) (prev : option nat) : nat * option nat * outcome nat nat nat :=
  (S s, (if Nat.even t then None else option_map (fun u => u + t) prev),
   if Nat.even t then Converted (2 * t) else Abandoned).
Example C08_nonvacuous :
  run nat nat nat nat nat demo_conv 8 8 8 8 flags_fixed [2; 3; 4; 5; 7; 6] 0
  = (Done [4 + 3; 8 + 5 + 7; 12] 6,
     [Call 2 None; Call 3 (Some 4); Call 4 (Some 7); Call 5 (Some 8); Call 7 (Some 13); Call 6 (Some 20)]).
Proof. vm_compute. reflexivity. Qed.
