(* C18 - Layout depends only on the resolver's answers; type tables are faithful.
   The JSON form of a table is serde_json's: its round trip is decided by execution (engine E6). *)
From Coq Require Import List NArith.
From Truc.Model Require Import Layout Builder TypeName.
From Truc.Proofs Require Import Erase TypeNameP.
Import ListNotations.
Open Scope N_scope.

(* Two request histories that agree once type names and may-be-uninitialised flags are erased -
   i.e. the same names, the same sizes and alignments as answered by the resolver, the same removals
   and closes - produce the same responses, the same variant lists and the same offsets, whatever the
   types are called and whatever the host's own size_of/align_of would say: the model's step receives
   nothing else.  (That the implementation is this function is what E1 checks under a synthetic
   resolver whose answers differ from the host's, through all four entry points.) *)
Theorem C18_congr : forall h1 h2, map erase_req h1 = map erase_req h2 ->
  trace empty_builder h1 = trace empty_builder h2 /\
  b_vs (run h1) = b_vs (run h2) /\
  map d_off (b_ds (run h1)) = map d_off (b_ds (run h2)) /\
  map d_size (b_ds (run h1)) = map d_size (b_ds (run h2)) /\
  map d_align (b_ds (run h1)) = map d_align (b_ds (run h2)).
Proof.
  intros h1 h2 E. destruct (run_erase h1) as [R1 T1]. destruct (run_erase h2) as [R2 T2].
  rewrite E in R1, T1. split; [congruence|].
  assert (EB : erase_b (run h1) = erase_b (run h2)) by congruence.
  destruct (erase_b_observe (run h1)) as (A1 & A2 & A3 & A4).
  destruct (erase_b_observe (run h2)) as (B1 & B2 & B3 & B4).
  rewrite EB in A1, A2, A3, A4. repeat split; congruence.
Qed.
Print Assumptions C18_congr.

Example C18_nonvacuous :
  let h1 := [Add 0 7 4 4 false; Add 1 8 3 1 true; Close SSimple; Remove 0%nat; Add 2 9 2 2 false; Close SBasic] in
  let h2 := [Add 0 1 4 4 true; Add 1 1 3 1 false; Close SSimple; Remove 0%nat; Add 2 5 2 2 true; Close SBasic] in
  map erase_req h1 = map erase_req h2 /\ h1 <> h2 /\ map d_off (b_ds (run h1)) = [0; 4; 0].
Proof. split; [reflexivity|split; [discriminate|vm_compute; reflexivity]]. Qed.
Print Assumptions C18_nonvacuous.

(* ---- pre-computed type tables (StaticTypeResolver): an association from recorded names to entries *)

(* a table answers exactly what was registered, under the recorded name of the type *)
Theorem C18_table_registered : forall (I : Type) (tb tb' : table I) t info,
  table_add tb (recorded_name t) info = Some tb' -> table_get tb' (recorded_name t) = Some info.
Proof.
  intros I tb tb' t info H. destruct (table_lookup_spellings tb tb' t info H) as [H1 _].
  unfold key_of in H1. exact H1.
Qed.
Print Assumptions C18_table_registered.

(* registering a type changes no other answer *)
Theorem C18_table_frame : forall (I : Type) (tb tb' : table I) k info k',
  table_add tb k info = Some tb' -> k' <> k -> table_get tb' k' = table_get tb k'.
Proof. intros I. exact (@table_frame I). Qed.
Print Assumptions C18_table_frame.

(* a second registration under the same name is refused (add_type panics), never a silent replacement *)
Theorem C18_table_no_overwrite : forall (I : Type) (tb : table I) k i i',
  table_get tb k = Some i -> table_add tb k i' = None.
Proof. intros I tb k i i' H. unfold table_add. now rewrite H. Qed.
Print Assumptions C18_table_no_overwrite.
