#!/bin/sh
# regenerate _CoqProject file list and Makefile
cd "$(dirname "$0")"
{ printf '%s\n' '-Q Model Truc.Model' '-Q Proofs Truc.Proofs' '-Q Props Truc.Props' '-arg -w -arg -deprecated-syntactic-definition,-deprecated-hint-without-locality'; ls Model/*.v Proofs/*.v Props/*.v 2>/dev/null; } > _CoqProject
coq_makefile -f _CoqProject -o Makefile >/dev/null
