#!/bin/sh
# regenerate _CoqProject file list and Makefile
cd "$(dirname "$0")"
mkdir -p Current
[ -f Current/Runtime.v ] || python3 -c "import sys; sys.path.insert(0, '..'); from vlib import srcscan; srcscan.write_current()"
{ printf '%s\n' '-Q Model Truc.Model' '-Q Proofs Truc.Proofs' '-Q Props Truc.Props' '-Q Current Truc.Current' '-arg -w -arg -deprecated-syntactic-definition,-deprecated-hint-without-locality'; ls Model/*.v Proofs/*.v Current/*.v Props/*.v 2>/dev/null; } > _CoqProject
coq_makefile -f _CoqProject -o Makefile >/dev/null
