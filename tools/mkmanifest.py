#!/usr/bin/env python3
"""Generates /verif/MANIFEST.json from the table below (run after adding a check)."""
import json
import os
import subprocess

V = os.path.dirname(os.path.dirname(os.path.abspath(__file__)))
props = [json.loads(l) for l in open(os.path.join(V, "properties.jsonl"))]

BASE_NOTE = ("Trusted: Coq 8.16.1 kernel + vm_compute (no native_compute, no axioms: Print Assumptions must answer "
             "'Closed under the global context'); the hand-written Gallina model (coq/Model) whose fidelity to /repo is "
             "checked, not proved, by differential execution on every run (in-Coq vm_compute evaluation of case files and "
             "the ExtrOcamlBasic extraction + driver.ml for volume); the Rust harness and its oracles; Python driver. ")

CLAIMS = {
    "C01": dict(
        engine="E1 bdiff",
        technique="Coq proof (invariant by induction over request histories) + model/implementation differential",
        text="Theorem C01 (coq/Props/C01.v): for ALL request histories with alignments >= 1 and the four shipped strategies in any "
             "per-variant mix, any two distinct data of any variant occupy disjoint byte ranges (zero-size included). Proved by an "
             "address-sortedness invariant over Builder.step, closed under the global context. The model is tied to /repo by running "
             "the real NativeRecordDefinitionBuilder and the model on the same histories (corpus, random, small-scope enumeration) and "
             "comparing every response, list and offset; the disjointness oracle is also evaluated on the implementation's own output.",
        note=BASE_NOTE + "usize is modelled by unbounded N (offsets below 2^64 assumed); full for the model, fidelity by correspondence.",
        ref="DESIGN.md section 4 C01"),
}


def main():
    checks = []
    for p in props:
        c = CLAIMS.get(p["id"])
        if not c:
            continue
        checks.append({
            "property_id": p["id"],
            "quick_cmd": "./check %s --tier quick" % p["id"],
            "thorough_cmd": "./check %s --tier thorough" % p["id"],
            "evidence_file": "/verif/evidence/%s.json" % p["id"],
            "replay_cmd_template": "./check %s --replay {path}" % p["id"],
            "engine": c["engine"],
            "level_claimed": {"category": c.get("category", "proof"), "text": c["text"], "design_ref": c["ref"]},
            "level_note": c["note"],
            "technique": c["technique"],
        })
    na = [{"property_id": p["id"], "reason": "check not built yet (work in progress; DESIGN.md section 9 gives the order of work)"}
          for p in props if p["id"] not in CLAIMS]
    commits = subprocess.run("git -C /repo log --format=%H --grep='^verif-hooks' ", shell=True, stdout=subprocess.PIPE).stdout.decode().split()
    m = {
        "version": 1,
        "setup_cmd": "cd /verif && ./setup.sh",
        "hooks": {"guard": "cfg(truc_verif)",
                  "enable": "RUSTFLAGS='--cfg truc_verif' (set by the checks that build the runtime with hooks)",
                  "baseline_off_cmd": "cd /repo && cargo test --workspace --no-fail-fast --offline",
                  "source_commits": commits, "add_only": True},
        "engines": [
            {"name": "E1 bdiff", "path": "harness/src/bin/bdiff.rs + coq/Model/{Layout,Builder,Observe}.v + coq/extract",
             "serves_properties": ["C01", "C02", "C03", "C12", "C13", "C18", "C20"],
             "kind_free_text": "differential execution of the real builder against the Gallina model (vm_compute inside Coq and extracted OCaml), plus property oracles on the implementation output"},
        ],
        "checks": checks,
        "not_applicable": na,
        "notes": "Approach and trusted base: DESIGN.md. Known findings and fixed defects: known_findings.txt.",
    }
    json.dump(m, open(os.path.join(V, "MANIFEST.json"), "w"), indent=1)
    print("MANIFEST.json: %d checks, %d not claimed" % (len(checks), len(na)))


if __name__ == "__main__":
    main()
