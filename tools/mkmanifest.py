#!/usr/bin/env python3
"""Generates /verif/MANIFEST.json from the table below (run after adding a check)."""
import json
import os
import subprocess

V = os.path.dirname(os.path.dirname(os.path.abspath(__file__)))
props = [json.loads(l) for l in open(os.path.join(V, "properties.jsonl"))]

BASE_NOTE = ("Trusted: Coq 8.16.1 kernel + vm_compute (no native_compute, no axioms: Print Assumptions must answer "
             "'Closed under the global context'); the hand-written Gallina model (coq/Model) whose fidelity to /repo is "
             "checked, not proved, by differential execution on every run (in-Coq vm_compute evaluation of case files and "
             "the ExtrOcamlBasic extraction + driver.ml for volume); the Rust harness and its oracles; Python driver. ")

CLAIMS = {
    "C01": dict(
        engine="E1 bdiff",
        technique="Coq proof (invariant by induction over request histories) + model/implementation differential",
        text="Theorem C01 (coq/Props/C01.v): for ALL request histories with alignments >= 1 and the four shipped strategies in any "
             "per-variant mix, any two distinct data of any variant occupy disjoint byte ranges (zero-size included). Proved by an "
             "address-sortedness invariant over Builder.step, closed under the global context. The model is tied to /repo by running "
             "the real NativeRecordDefinitionBuilder and the model on the same histories (corpus, random, small-scope enumeration) and "
             "comparing every response, list and offset; the disjointness oracle is also evaluated on the implementation's own output.",
        note=BASE_NOTE + "usize is modelled by unbounded N (offsets below 2^64 assumed); full for the model, fidelity by correspondence.",
        ref="DESIGN.md section 4 C01"),
    "C02": dict(
        engine="E1 bdiff",
        technique="Coq proof (sortedness/alignment invariant over histories) + model/implementation differential",
        text="Theorem C02 (coq/Props/C02.v): for ALL histories, every datum of every variant has off mod align = 0, ends at or below "
             "max_size whenever max_size answers, max_type_align is a multiple of its alignment when alignments are powers of two, and the "
             "non-zero-size data of a variant are listed in strictly increasing address order. E1 ties model and builder (offsets, lists, "
             "max_size, max_type_align) and evaluates the same four clauses on the implementation's output. The published constants in the "
             "generated text (MAX_SIZE, repr(align)) are tied by the generator engine once C03b is registered.",
        note=BASE_NOTE + "Capacity clause is conditional on max_size not overflowing usize (unbounded N in the model).",
        ref="DESIGN.md section 4 C02"),
    "C03": dict(
        engine="E1 bdiff",
        technique="Coq proof (frame lemma over request histories) + differential with offset snapshots at every close",
        text="Theorems C03a / C03a_variants_append_only: once a datum is in a closed variant no continuation of the history changes its "
             "offset, and closed variants are never edited. Part (b) (one size/alignment of all generated record types) is PARTIAL here: "
             "rustc's size_of is not modelled; it is covered by the generator engines (repr(align) and capacity identical for all variants). "
             "E1 snapshots all offsets at every close and compares them at every later close on the implementation.",
        note=BASE_NOTE + "Part (b) relies on the Rust reference rule for repr(align) structs, validated by execution only.",
        ref="DESIGN.md section 4 C03"),
    "C12": dict(
        engine="E1 bdiff",
        technique="Coq refinement proof to a set-level specification + differential including invalid request streams",
        text="Theorem C12_refines: in every reachable state every request (valid or invalid) gets the response of the set-level spec "
             "Spec12.sp_step and the state abstracts to the spec's next state (fresh ids = number handed out so far, variant = predecessor "
             "- removals + additions, no-op close, rejections). C12_rejected_unchanged: a rejected request returns the very same state. "
             "C12_unique_names, C12_build. C12_refines_generic: the same refinement for the generic builder closed by its own two strategies (set-level "
             "invariant ginv, Proofs/Refine12G.v); the two builders share the request layer (the native one delegates), the generic strategies are exercised through E1's replays. E1 observes response + current data after "
             "every request and full state after every close; its oracle checks 'unchanged after Err' on the full observable state.",
        note=BASE_NOTE,
        ref="DESIGN.md section 4 C12"),
    "C13": dict(
        engine="E1 bdiff",
        technique="Coq proof over panic-aware models (Display, max_size) + differential including panics as observations",
        text="Theorems C13a / C13a_requests: for all histories whose requested sizes and alignments add up to at most usize::MAX "
             "(hbound h <= MAXU; Proofs/Bound.v proves every datum then ends below usize::MAX, whatever mix of strategies), the panic-aware models of Display and max_size return "
             "(address order including zero-size data is what Display needs); refutation witnesses for both pre-fix panics are kept. "
             "PARTIAL: generation/compilation (part b) is rustc's; the generator's binding decisions are covered by the generator engines "
             "when registered. E1 records every panic of a request, of build(), max_size(), max_type_align() and to_string() as an observation.",
        note=BASE_NOTE + "Part (a) full; part (b) (rustc accepts the module) partial: by execution (E3, E5).",
        ref="DESIGN.md section 4 C13"),
    "C17": dict(
        engine="E6 tyname",
        technique="Coq proof (structural induction over the type grammar; reader/printer round trip) + differential against truc_type_name + rustc identity probe",
        text="Theorems (coq/Props/C17.v) over the full grammar of the property at ANY nesting depth: C17_denotes (the rewritten tree of the compiler's name resolves, "
             "where generated code is compiled, to the very type), C17_name_denotes (the printed TOKENS, read back by a reference reader of Rust's type syntax - `(T)` vs `(T,)` "
             "included - denote the type), C17_names_distinct (recorded names are injective, so table keys never collide), C17_spellings (short and fully qualified spellings "
             "get one key), C17_whitespace, C17_lookup (a registered type is found under both spellings however spaced). Tied to /repo by E6: the extracted model prints the "
             "recorded name of every generated type and must equal truc_type_name (HostTypeResolver), rustc decides `fn(T) -> <recorded name>` for each, and a real "
             "StaticTypeResolver is queried under 4 spellings per type.",
        note=BASE_NOTE + "That rustc's and syn's parsers agree with the reference reader, and std::any::type_name's output format, are trusted and exercised (E6), not proved.",
        ref="DESIGN.md section 4 C17"),
    "C18": dict(
        engine="E1 bdiff",
        technique="Coq proof (erasure commutes with every strategy and request) + differential under a synthetic resolver",
        text="Theorem C18_congr: histories equal up to type names and uninit flags give equal responses, lists, offsets. The implementation "
             "is tied to that function by E1 running under a synthetic resolver whose sizes/alignments never coincide with the host's "
             "(marker types of host size 0), through all four entry points (typed, dynamic, override, copy) and with an oracle that replays "
             "every history through rotated entry points. Type tables: C18_table_registered / _frame / _no_overwrite on the association-list model of "
             "StaticTypeResolver keyed by recorded names (coq/Model/TypeName.v); E6 registers thousands of grammar-generated types in a real table and compares "
             "typed and dynamic lookups with size_of / align_of, the standard table with the host, and every answer before and after a JSON round trip.",
        note=BASE_NOTE + "The JSON text form is serde_json's: its round trip is decided by execution only (E6).",
        ref="DESIGN.md section 4 C18"),
    "C20": dict(
        engine="E1 bdiff",
        technique="Coq proof (loop invariant over the helper's three loops; source invariant: identifiers never reused) + differential on every final definition into 6 target builders + isomorphism oracle",
        text="Theorem C20 (coq/Props/C20.v, Proofs/Replay.v): for EVERY definition built by a history of valid requests and every native target strategy, the helper "
             "(modelled over Builder.step with the callbacks all callers use) succeeds on a fresh builder - no request refused, no map lookup panics - returns the identity "
             "variant map, one injective datum map, and a target whose k-th variant is the image of the k-th source variant with equal name, type, size, alignment and "
             "uninit flag. C20_source: built definitions never reuse identifiers and consecutive variants differ. For the two generic targets only the map's shape is "
             "proved (C20_partial). E1 replays every built definition into 4 native and 2 generic builders, model against implementation, plus the C20 oracle.",
        note=BASE_NOTE + "Full for native targets; generic targets by differential + oracle.",
        ref="DESIGN.md section 4 C20"),
    "C08": dict(
        engine="E4 vecdrv",
        technique="Coq refinement proof (two-index in-place loop = left fold, any converter, any length) + exhaustive scripted differential with ledger and allocator log",
        text="Theorems C08_refines (the model of try_convert_vec_in_place - one buffer, two indices, faults for reading a consumed slot or "
             "overwriting a live one - equals the plain fold `spec` for EVERY vector length and EVERY converter, a Section variable with its "
             "own state that may modify the previous output), C08_success (one converter call per input, in order, nothing dropped or released), "
             "C08_no_fault, C08_length; C08_current ties the five code facts the proof needs to convert.rs through the translator. "
             "C08_wrapper / C08_wrapper_refuses: the infallible wrapper convert_vec_in_place (the function instantiated with the empty error type, then unwrap; fact wrapper_delegates read from the source) is the same fold for every input, the empty one included, and refuses what the function refuses. "
             "Same allocation/capacity is the allocator's: observed by E4 (pointer, capacity, no release) on every successful case. "
             "E4 runs every script that matters up to the tier's length on 4 element pairs in dev and release against the model.",
        note=BASE_NOTE + "Full for the index logic; 'same allocation' partial (execution). catch_unwind/unwinding are trusted.",
        ref="DESIGN.md section 4 C08"),
    "C09": dict(
        engine="E4 vecdrv",
        technique="Coq proof over the fold specification (failure decomposition) + exhaustive failure-position enumeration with ledger/allocator oracles",
        text="Theorem C09: a failing run decomposes as pre ++ t :: r with the run over pre successful, and after the failing call the "
             "function does exactly: drop every kept output once, drop every remaining input once, release the buffer, hand back the very "
             "error / panic payload; nothing else, no further call. C09_current requires convert.rs (translator) to release the buffer after "
             "the clean-up in both arms and to resume_unwind the payload; C09_refuted_unfixed / _late_increment keep the witnesses. "
             "E4 enumerates every failure position x 4 failure kinds x every preceding pattern, with ledger balance, allocator log and payload type.",
        note=BASE_NOTE + "The unwinder and the allocator are exercised, not modelled.",
        ref="DESIGN.md section 4 C09"),
    "C10": dict(
        engine="E4 vecdrv",
        technique="Coq proof (guard before ownership) + source translator + type matrix executed in a separate process",
        text="Theorem C10 / C10_converse: size or alignment mismatch <=> Refused, with no converter call and the input dropped once per element "
             "then its buffer, for every length. C10_current: both assertions are present and precede ManuallyDrop::new(input) in the source. "
             "E4 runs 8 mismatching pairs (size up/down, alignment up/down, to/from zero-size, both) x lengths 0,1,2,3,7 with an all-abandon "
             "converter in dev and release and requires a refusal; the ledger must show each input dropped exactly once.",
        note=BASE_NOTE,
        ref="DESIGN.md section 4 C10"),
    "C04": dict(
        engine="E1 bdiff + E2 gendump + E3 execgen",
        technique="Coq proofs on an abstract machine for the generated function bodies, linked to the layout theorems + builder and generator differentials + execution of real generated code (dev+hooks, release)",
        text="Theorems C04_new, C04_get, C04_unpack, C04_set_frame, C04_new_uninit, C04_new_uninit_then_fill (the fields left uninitialised, once written, complete the variant), "
             "C04_end_to_end (from a request history to the values read back: layout_ok is DERIVED from C01/C02/C12 by Proofs/Link.v) (coq/Props/C04.v): on the abstract machine Exec running the "
             "bodies Gen emits, for every definition/variant with layout_ok, every capacity and every valuation: new never faults and yields a record "
             "that holds exactly the values put in; every accessor of ANY record that holds the variant returns the field's value; unpack returns all "
             "values and destroys nothing; a write through one mutable accessor changes that field and no other. C04_current ties the pointer/store "
             "facts of data.rs (translator). E1 ties the layout the theorems start from; E2 compares every item of the real generated text with Gen; E3 executes real generated modules over 13 "
             "instrumented field types on the stack, in a Box, in a Vec, with larger capacities, by-value rebinding, in dev (with runtime hooks) and release.",
        note=BASE_NOTE + "PARTIAL: Exec is a model of a fragment of Rust (trusted, validated by E3); two zero-size fields of one type at one offset are outside the theorems (E3 covers them); what LLVM does is observed, not proved.",
        ref="DESIGN.md section 4 C04"),
    "C05": dict(
        engine="E1 bdiff + E2 gendump + E3 execgen",
        technique="Coq proof (conversion maps records that hold P to records that hold Q) + generator differential + execution of every form and chain",
        text="Theorem C05 (conv_holds): for two consecutive variants with layout_ok and any record holding the previous one, each of the four generated "
             "conversion forms never faults, keeps every carried field with its value, stores every supplied added field with the supplied value (an added "
             "field may reuse a removed field's bytes: removed fields are read first), and hands back (and_out) or destroys once (otherwise) every removed "
             "field with the value it had. C05_minus_plus: the lists Gen computes by merging the id-sorted variants have the required shape. C05_chain_values: any chain of conversions (complete or uninit-then-filled) and writes ends with the closed-form values uchain_vals, read back by every accessor; C05_end_to_end: from a request history to the converted record; C05_vec_in_place / _forms / _merge / _then_drop / _fails / _fails_accounts / C05_vec_pipeline: convert_vec_in_place over a Vec of records with the generated conversion as converter (VecConv and Exec composed): any of the four conversion forms, a converter merging elements into the previous output, success, failure with global accounting, several variants in a row. Chains are the "
             "composition: C05_holds (complete forms map `holds P` to `holds Q`), C05_uninit_then_fill (uninit forms, then one write per field left uninitialised). "
             "E1 ties the layout, E2 statement order; E3 executes the 4 forms and 4 chain patterns per definition.",
        note=BASE_NOTE + "PARTIAL as C04.",
        ref="DESIGN.md section 4 C05"),
    "C06": dict(
        engine="E1 bdiff + E2 gendump + E3 execgen",
        technique="Coq proofs (per-operation accounting of every value on the abstract machine) + ledger of live instances in real executions",
        text="Theorems C06_drop (the generated Drop destroys a permutation of the droppable values the record holds: each exactly once), "
             "C06_conversion_drops, with C04_new / C04_unpack / C04_set_frame / C05 stating for every other operation which values are moved in, handed "
             "back or destroyed. C06_lifecycle_drop / _unpack: ANY sequence of reads and writes on one variant, then Drop / unpack; C06_whole_life: any number of "
             "conversions with any reads and writes in between, then Drop - destroyed plus handed back equals entered, as multisets, and nothing faults. C06_whole_life_uninit adds the uninit conversion forms followed by the writes of the fields left out as stages; C06_life_from_new / _from_new_uninit start at the constructors; C06_life_from_history derives every layout hypothesis from a request history and takes the record through ALL the variants the builder produced. E3 runs every scenario under a ledger of live instances (double destruction and leaks are reported per operation "
             "sequence), plus the per-byte ownership shadow of the runtime hooks.",
        note=BASE_NOTE + "PARTIAL as C04 (the whole-life theorem covers the complete conversion forms).",
        ref="DESIGN.md section 4 C06"),
    "C07": dict(
        engine="E1 bdiff + E2 gendump + E3 execgen (+ runtime hooks)",
        technique="Coq proofs that no generated operation reaches a Fault of the abstract machine + hooks (bounds, alignment, ownership shadow) + address checks in real executions",
        text="Theorems C07_no_fault (with C05), C07_whole_life_no_fault, C07_whole_life_uninit_no_fault and C07_life_from_history_no_fault (a whole life across variants, with uninit conversion forms, from a request history): every access the generated operations make is in bounds, aligned for its type given the alignment class "
             "of the buffer (A for record structs, 1 for local buffers), touches a droppable value only where one of that type is owned, never stores onto "
             "an owned droppable value, stores through a unique pointer by non-alignment-requiring means. C07_current ties those runtime facts to data.rs; "
             "C07_refuted_unfixed keeps the pre-fix faults. E3 checks the address of every record and every field reference at stack/Box/Vec placements and "
             "runs with the cfg(truc_verif) hooks (bounds, address alignment, per-byte ownership shadow) in dev.",
        note=BASE_NOTE + "PARTIAL: base-address alignment is rustc's/the allocator's (observed).",
        ref="DESIGN.md section 4 C07"),
    "C11": dict(
        engine="E2 gendump + E5 probe",
        technique="Coq proof that the emitted assertions force the recorded type information + compile probes (rustc accepts / rejects)",
        text="Theorem C11 (gate_sound): for every definition and fragment selection, if the generated module passes its own compile-time gate in a world "
             "(every const_assert_eq! on size and alignment holds, every Copy instantiation is met) then every datum of every variant - introduced first or "
             "later, still present or removed - has its real size and alignment recorded, and may-be-uninit data have Copy types. C11_refuted_unfixed keeps "
             "the witness of the missing alignment assertions. E5 compiles ~200 probes (10 types x perturbations x positions, paired with unperturbed ones).",
        note=BASE_NOTE + "PARTIAL: that rustc rejects a failed const assertion / Copy bound is rustc's (E5).",
        ref="DESIGN.md section 4 C11"),
    "C14": dict(
        engine="E5 probe + E2 gendump",
        technique="Coq refutation on the faithful model (auto-trait rule) + Send/Sync compile probes; open known findings",
        text="C14_refuted: on the faithful model a variant with a non-Send field is still Send (the record struct only contains bytes); C14_all_send: the "
             "converse half holds. The 10 probes that show the finding (Rc, Cell, raw pointer fields; first and later variant) are listed in "
             "known_findings.txt and re-demonstrated on every run (KNOWN-FINDING lines); any other disagreement - e.g. a record with only Send+Sync fields "
             "that is not Send or not Sync, or an `unsafe impl` in the generated text - is reported as a violation.",
        note=BASE_NOTE + "The auto-trait rule is trusted; validated by E5.",
        ref="DESIGN.md section 4 C14"),
    "C15": dict(
        engine="E2 gendump + E3 execgen",
        technique="Coq proofs over an abstract format (round trip, wrong length, undecodable element) + generator differential + real JSON/bincode executions",
        text="C15_record_roundtrip (Proofs/SerdeRecords.v): on the abstract machine, serialising a record that holds a variant reads every field through its accessor in declaration order and faults nowhere, and deserialising the elements builds, through the generated constructor, a record holding the same values; an input of another length never reaches the constructor. Theorems C15_roundtrip, C15_wrong_length, C15_bad_element over Model/Serde.v (the format's and the field types' enc/dec are Section variables "
             "with dec (enc x) = x); C15_gen_order: serialize and deserialize list all fields in declaration order with their types. E2 ties order, types and "
             "the tuple length literal; E3 does JSON and bincode round trips, every truncation, one element too many, an undecodable element at every "
             "position and a failing element decoder, with the ledger checking that nothing decoded is leaked.",
        note=BASE_NOTE + "PARTIAL: serde's data model framing is modelled.",
        ref="DESIGN.md section 4 C15"),
    "C16": dict(
        engine="E2 gendump + E3 execgen",
        technique="Coq proofs on the abstract machine (clone = constructor over per-field clones) + generator differential + executions incl. panicking clones",
        text="Theorems C16_equal (the clone never faults, destroys nothing, every field has the payload of the source's), C16_independent (a write to one "
             "leaves the other), C16_clone_from (the target then holds the clone's values; exactly its previous droppable values were destroyed, each once), C16_gen (every field, declaration order, copied iff may-be-uninit; clone_from agrees - checked by the E2 dumper). E3 runs "
             "clone / mutate / drop-either / clone_from and a clone that panics at every tracked field, under the ledger.",
        note=BASE_NOTE + "PARTIAL as C04; unwinding of a panicking clone is executed, not modelled.",
        ref="DESIGN.md section 4 C16"),
    "C19": dict(
        category="other",
        engine="E1 bdiff + E2 gendump + E6 tyname",
        technique="by construction in the model (functions) + cross-process differential + hash of generated text in two processes + repeated type-table lookups with fresh strings + ordered-collections scan",
        text="C19_model_is_a_function is immediate; what decides the property is (1) E1/E2 comparing the implementation with the model function in "
             "separately started processes, (2) E2 generating every module twice in one process and hashing it again in another process, (3) the translator "
             "requiring ordered collections only in the strategy/generator sources (C19_current), (4) E6 repeating every type lookup in three passes with freshly allocated strings.",
        note=BASE_NOTE,
        ref="DESIGN.md section 4 C19"),
}


def main():
    checks = []
    for p in props:
        c = CLAIMS.get(p["id"])
        if not c:
            continue
        checks.append({
            "property_id": p["id"],
            "quick_cmd": "./check %s --tier quick" % p["id"],
            "thorough_cmd": "./check %s --tier thorough" % p["id"],
            "evidence_file": "/verif/evidence/%s.json" % p["id"],
            "replay_cmd_template": "./check %s --replay {path}" % p["id"],
            "engine": c["engine"],
            "level_claimed": {"category": c.get("category", "proof"), "text": c["text"], "design_ref": c["ref"]},
            "level_note": c["note"],
            "technique": c["technique"],
        })
    na = [{"property_id": p["id"], "reason": "check not built yet (work in progress; DESIGN.md section 9 gives the order of work)"}
          for p in props if p["id"] not in CLAIMS]
    commits = subprocess.run("git -C /repo log --format=%H --grep='^verif-hooks' ", shell=True, stdout=subprocess.PIPE).stdout.decode().split()
    m = {
        "version": 1,
        "setup_cmd": "cd /verif && ./setup.sh",
        "hooks": {"guard": "cfg(truc_verif)",
                  "enable": "RUSTFLAGS='--cfg truc_verif' (set by the checks that build the runtime with hooks)",
                  "baseline_off_cmd": "cd /repo && cargo test --workspace --no-fail-fast --offline",
                  "source_commits": commits, "add_only": True},
        "engines": [
            {"name": "E1 bdiff", "path": "harness/src/bin/bdiff.rs + coq/Model/{Layout,Builder,Observe}.v + coq/extract",
             "serves_properties": ["C01", "C02", "C03", "C04", "C05", "C06", "C07", "C12", "C13", "C18", "C19", "C20"],
             "kind_free_text": "differential execution of the real builder against the Gallina model (vm_compute inside Coq and extracted OCaml), plus property oracles on the implementation output"},
            {"name": "E4 vecdrv", "path": "harness/src/bin/vecdrv.rs + coq/Model/{VecConv,VecScript}.v + vlib/e4.py",
             "serves_properties": ["C08", "C09", "C10"],
             "kind_free_text": "scripted converters on ledger-tracked element types, global-allocator watch, dev+release, against the Gallina model"},
            {"name": "E2 gendump", "path": "harness/src/bin/gendump.rs + coq/Model/{Ir,Gen}.v + coq/extract + vlib/e2.py",
             "serves_properties": ["C02", "C03", "C04", "C05", "C06", "C07", "C11", "C13", "C14", "C15", "C16", "C19"],
             "kind_free_text": "syn-based dump of every item of the real generated text compared with the Gallina generator model; byte identity across processes"},
            {"name": "E3 execgen", "path": "harness/src/bin/mkexec.rs + harness/src/vt.rs + vlib/e3.py",
             "serves_properties": ["C02", "C03", "C04", "C05", "C06", "C07", "C13", "C15", "C16"],
             "kind_free_text": "compiles and runs real generated modules with instrumented field types, ledger, address checks, runtime hooks (dev) and release"},
            {"name": "E5 probe", "path": "harness/src/bin/mkprobe.rs + vlib/e5.py",
             "serves_properties": ["C11", "C13", "C14"],
             "kind_free_text": "one rustc target per probe: accept / reject of generated modules"},
            {"name": "E6 tyname", "path": "vlib/e6.py + coq/Model/{TypeName,TypeParse}.v + coq/extract (tyname mode) + harness/src/vt.rs",
             "serves_properties": ["C17", "C18", "C19"],
             "kind_free_text": "grammar-generated Rust types: recorded names against the extracted model, table lookups under several spellings, JSON round trip, rustc identity probe"},
            {"name": "T1/T2 srcscan", "path": "harness/rtscan (syn) + vlib/srcscan.py -> coq/Current/Runtime.v",
             "serves_properties": ["C04", "C05", "C06", "C07", "C08", "C09", "C10", "C11", "C19"],
             "kind_free_text": "translator of token-level source facts into model parameters, regenerated on every run"},
        ],
        "checks": checks,
        "not_applicable": na,
        "notes": "Approach and trusted base: DESIGN.md. Known findings and fixed defects: known_findings.txt.",
    }
    json.dump(m, open(os.path.join(V, "MANIFEST.json"), "w"), indent=1)
    print("MANIFEST.json: %d checks, %d not claimed" % (len(checks), len(na)))


if __name__ == "__main__":
    main()
