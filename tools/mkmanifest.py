#!/usr/bin/env python3
"""Generates /verif/MANIFEST.json from the table below (run after adding a check)."""
import json
import os
import subprocess

V = os.path.dirname(os.path.dirname(os.path.abspath(__file__)))
props = [json.loads(l) for l in open(os.path.join(V, "properties.jsonl"))]

BASE_NOTE = ("Trusted: Coq 8.16.1 kernel + vm_compute (no native_compute, no axioms: Print Assumptions must answer "
             "'Closed under the global context'); the hand-written Gallina model (coq/Model) whose fidelity to /repo is "
             "checked, not proved, by differential execution on every run (in-Coq vm_compute evaluation of case files and "
             "the ExtrOcamlBasic extraction + driver.ml for volume); the Rust harness and its oracles; Python driver. ")

CLAIMS = {
    "C01": dict(
        engine="E1 bdiff",
        technique="Coq proof (invariant by induction over request histories) + model/implementation differential",
        text="Theorem C01 (coq/Props/C01.v): for ALL request histories with alignments >= 1 and the four shipped strategies in any "
             "per-variant mix, any two distinct data of any variant occupy disjoint byte ranges (zero-size included). Proved by an "
             "address-sortedness invariant over Builder.step, closed under the global context. The model is tied to /repo by running "
             "the real NativeRecordDefinitionBuilder and the model on the same histories (corpus, random, small-scope enumeration) and "
             "comparing every response, list and offset; the disjointness oracle is also evaluated on the implementation's own output.",
        note=BASE_NOTE + "usize is modelled by unbounded N (offsets below 2^64 assumed); full for the model, fidelity by correspondence.",
        ref="DESIGN.md section 4 C01"),
    "C02": dict(
        engine="E1 bdiff",
        technique="Coq proof (sortedness/alignment invariant over histories) + model/implementation differential",
        text="Theorem C02 (coq/Props/C02.v): for ALL histories, every datum of every variant has off mod align = 0, ends at or below "
             "max_size whenever max_size answers, max_type_align is a multiple of its alignment when alignments are powers of two, and the "
             "non-zero-size data of a variant are listed in strictly increasing address order. E1 ties model and builder (offsets, lists, "
             "max_size, max_type_align) and evaluates the same four clauses on the implementation's output. The published constants in the "
             "generated text (MAX_SIZE, repr(align)) are tied by the generator engine once C03b is registered.",
        note=BASE_NOTE + "Capacity clause is conditional on max_size not overflowing usize (unbounded N in the model).",
        ref="DESIGN.md section 4 C02"),
    "C03": dict(
        engine="E1 bdiff",
        technique="Coq proof (frame lemma over request histories) + differential with offset snapshots at every close",
        text="Theorems C03a / C03a_variants_append_only: once a datum is in a closed variant no continuation of the history changes its "
             "offset, and closed variants are never edited. Part (b) (one size/alignment of all generated record types) is PARTIAL here: "
             "rustc's size_of is not modelled; it is covered by the generator engines (repr(align) and capacity identical for all variants). "
             "E1 snapshots all offsets at every close and compares them at every later close on the implementation.",
        note=BASE_NOTE + "Part (b) relies on the Rust reference rule for repr(align) structs, validated by execution only.",
        ref="DESIGN.md section 4 C03"),
    "C12": dict(
        engine="E1 bdiff",
        technique="Coq refinement proof to a set-level specification + differential including invalid request streams",
        text="Theorem C12_refines: in every reachable state every request (valid or invalid) gets the response of the set-level spec "
             "Spec12.sp_step and the state abstracts to the spec's next state (fresh ids = number handed out so far, variant = predecessor "
             "- removals + additions, no-op close, rejections). C12_rejected_unchanged: a rejected request returns the very same state. "
             "C12_unique_names, C12_build. Proved for the native builder's four strategies (the generic builder shares the request layer; "
             "its two strategies are exercised through E1's replays into generic builders). E1 observes response + current data after "
             "every request and full state after every close; its oracle checks 'unchanged after Err' on the full observable state.",
        note=BASE_NOTE,
        ref="DESIGN.md section 4 C12"),
    "C13": dict(
        engine="E1 bdiff",
        technique="Coq proof over panic-aware models (Display, max_size) + differential including panics as observations",
        text="Theorem C13a: for all histories whose data end below usize::MAX, the panic-aware models of Display and max_size return "
             "(address order including zero-size data is what Display needs); refutation witnesses for both pre-fix panics are kept. "
             "PARTIAL: generation/compilation (part b) is rustc's; the generator's binding decisions are covered by the generator engines "
             "when registered. E1 records every panic of a request, of build(), max_size(), max_type_align() and to_string() as an observation.",
        note=BASE_NOTE + "fits_usize is a hypothesis (the history bound lemma is future work).",
        ref="DESIGN.md section 4 C13"),
    "C18": dict(
        engine="E1 bdiff",
        technique="Coq proof (erasure commutes with every strategy and request) + differential under a synthetic resolver",
        text="Theorem C18_congr: histories equal up to type names and uninit flags give equal responses, lists, offsets. The implementation "
             "is tied to that function by E1 running under a synthetic resolver whose sizes/alignments never coincide with the host's "
             "(marker types of host size 0), through all four entry points (typed, dynamic, override, copy) and with an oracle that replays "
             "every history through rotated entry points. The type-table half (lookup, JSON round trip) is not covered yet.",
        note=BASE_NOTE + "PARTIAL: StaticTypeResolver / JSON not modelled yet.",
        ref="DESIGN.md section 4 C18"),
    "C20": dict(
        engine="E1 bdiff",
        technique="Coq model of the helper + differential on every final definition into 6 target builders + isomorphism oracle; theorem partial",
        text="The conversion helper is modelled over Builder.step (Convert in coq/Model/Builder.v). Proved: C20_partial (shape of the returned "
             "map). The full isomorphism statement is written in coq/Props/C20.v and is NOT yet proved; it is decided per run by E1 "
             "(model = implementation for the replay of every built definition into 4 native and 2 generic builders) plus the C20 oracle on the "
             "implementation's result (one target variant per source variant, identity map, injective datum correspondence, equal names/type info).",
        note=BASE_NOTE + "PARTIAL theorem; the deciding part is the differential + oracle.",
        ref="DESIGN.md section 4 C20"),
    "C08": dict(
        engine="E4 vecdrv",
        technique="Coq refinement proof (two-index in-place loop = left fold, any converter, any length) + exhaustive scripted differential with ledger and allocator log",
        text="Theorems C08_refines (the model of try_convert_vec_in_place - one buffer, two indices, faults for reading a consumed slot or "
             "overwriting a live one - equals the plain fold `spec` for EVERY vector length and EVERY converter, a Section variable with its "
             "own state that may modify the previous output), C08_success (one converter call per input, in order, nothing dropped or released), "
             "C08_no_fault, C08_length; C08_current ties the five code facts the proof needs to convert.rs through the translator. "
             "Same allocation/capacity is the allocator's: observed by E4 (pointer, capacity, no release) on every successful case. "
             "E4 runs every script that matters up to the tier's length on 4 element pairs in dev and release against the model.",
        note=BASE_NOTE + "Full for the index logic; 'same allocation' partial (execution). catch_unwind/unwinding are trusted.",
        ref="DESIGN.md section 4 C08"),
    "C09": dict(
        engine="E4 vecdrv",
        technique="Coq proof over the fold specification (failure decomposition) + exhaustive failure-position enumeration with ledger/allocator oracles",
        text="Theorem C09: a failing run decomposes as pre ++ t :: r with the run over pre successful, and after the failing call the "
             "function does exactly: drop every kept output once, drop every remaining input once, release the buffer, hand back the very "
             "error / panic payload; nothing else, no further call. C09_current requires convert.rs (translator) to release the buffer after "
             "the clean-up in both arms and to resume_unwind the payload; C09_refuted_unfixed / _late_increment keep the witnesses. "
             "E4 enumerates every failure position x 4 failure kinds x every preceding pattern, with ledger balance, allocator log and payload type.",
        note=BASE_NOTE + "The unwinder and the allocator are exercised, not modelled.",
        ref="DESIGN.md section 4 C09"),
    "C10": dict(
        engine="E4 vecdrv",
        technique="Coq proof (guard before ownership) + source translator + type matrix executed in a separate process",
        text="Theorem C10 / C10_converse: size or alignment mismatch <=> Refused, with no converter call and the input dropped once per element "
             "then its buffer, for every length. C10_current: both assertions are present and precede ManuallyDrop::new(input) in the source. "
             "E4 runs 8 mismatching pairs (size up/down, alignment up/down, to/from zero-size, both) x lengths 0,1,2,3,7 with an all-abandon "
             "converter in dev and release and requires a refusal; the ledger must show each input dropped exactly once.",
        note=BASE_NOTE,
        ref="DESIGN.md section 4 C10"),
}


def main():
    checks = []
    for p in props:
        c = CLAIMS.get(p["id"])
        if not c:
            continue
        checks.append({
            "property_id": p["id"],
            "quick_cmd": "./check %s --tier quick" % p["id"],
            "thorough_cmd": "./check %s --tier thorough" % p["id"],
            "evidence_file": "/verif/evidence/%s.json" % p["id"],
            "replay_cmd_template": "./check %s --replay {path}" % p["id"],
            "engine": c["engine"],
            "level_claimed": {"category": c.get("category", "proof"), "text": c["text"], "design_ref": c["ref"]},
            "level_note": c["note"],
            "technique": c["technique"],
        })
    na = [{"property_id": p["id"], "reason": "check not built yet (work in progress; DESIGN.md section 9 gives the order of work)"}
          for p in props if p["id"] not in CLAIMS]
    commits = subprocess.run("git -C /repo log --format=%H --grep='^verif-hooks' ", shell=True, stdout=subprocess.PIPE).stdout.decode().split()
    m = {
        "version": 1,
        "setup_cmd": "cd /verif && ./setup.sh",
        "hooks": {"guard": "cfg(truc_verif)",
                  "enable": "RUSTFLAGS='--cfg truc_verif' (set by the checks that build the runtime with hooks)",
                  "baseline_off_cmd": "cd /repo && cargo test --workspace --no-fail-fast --offline",
                  "source_commits": commits, "add_only": True},
        "engines": [
            {"name": "E1 bdiff", "path": "harness/src/bin/bdiff.rs + coq/Model/{Layout,Builder,Observe}.v + coq/extract",
             "serves_properties": ["C01", "C02", "C03", "C12", "C13", "C18", "C20"],
             "kind_free_text": "differential execution of the real builder against the Gallina model (vm_compute inside Coq and extracted OCaml), plus property oracles on the implementation output"},
            {"name": "E4 vecdrv", "path": "harness/src/bin/vecdrv.rs + coq/Model/{VecConv,VecScript}.v + vlib/e4.py",
             "serves_properties": ["C08", "C09", "C10"],
             "kind_free_text": "scripted converters on ledger-tracked element types, global-allocator watch, dev+release, against the Gallina model"},
            {"name": "T1/T2 srcscan", "path": "vlib/srcscan.py -> coq/Current/Runtime.v",
             "serves_properties": ["C08", "C09", "C10"],
             "kind_free_text": "translator of token-level source facts into model parameters, regenerated on every run"},
        ],
        "checks": checks,
        "not_applicable": na,
        "notes": "Approach and trusted base: DESIGN.md. Known findings and fixed defects: known_findings.txt.",
    }
    json.dump(m, open(os.path.join(V, "MANIFEST.json"), "w"), indent=1)
    print("MANIFEST.json: %d checks, %d not claimed" % (len(checks), len(na)))


if __name__ == "__main__":
    main()
