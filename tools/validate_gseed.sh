#!/bin/bash
# validate_gseed.sh <G-k> <m1|m2> : as validate_fseed.sh for the last (integration) batch; seed stored as <Cnn>-g<k><m>
set -u
ID=$1; M=$2
WT=/tmp/mut/$ID; OUT=/tmp/mut/$ID.out
P=$(tr -d ' \n\r' < $OUT/$M.property | cut -c1-3)
DST=/verif/seeded/$P-g${ID#G}$M
export CARGO_NET_OFFLINE=true
cd $WT || exit 2
git checkout -q -- . ; git clean -fdq -e target
git apply $OUT/$M.diff || { echo "APPLY-FAILED"; exit 2; }
T=$(cargo test --workspace --no-fail-fast --offline 2>&1 | grep -E '^test result' | awk '{p+=$4; f+=$6} END {print p" passed "f" failed"}')
DEMO=$OUT/${M}_demo
(cd $DEMO && timeout 900 cargo run --offline -q >/tmp/mut/$ID.$M.with.log 2>&1); WITH=$?
git checkout -q -- .
(cd $DEMO && timeout 900 cargo run --offline -q >/tmp/mut/$ID.$M.without.log 2>&1); WITHOUT=$?
echo "$ID $M -> $DST tests_with_change: $T ; demo exit with change: $WITH ; without: $WITHOUT"
if [ "$T" = "66 passed 0 failed" ] && [ $WITH -ne 0 ] && [ $WITHOUT -eq 0 ]; then
  rm -rf $DST; mkdir -p $DST
  cp $OUT/$M.diff $DST/patch.diff
  rsync -a --exclude target --exclude Cargo.lock $DEMO/ $DST/demo/
  sed -i "s#/tmp/mut/$ID/#/repo/#g" $DST/demo/Cargo.toml
  cp $OUT/notes.md $DST/notes.md
  echo "CONFIRMED $(basename $DST)"
else
  echo "NOT-CONFIRMED"
fi
