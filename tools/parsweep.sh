#!/bin/bash
# parsweep.sh <workers> : the full regression sweep of seeded/ (as seedall.sh), split over <workers> private mount
# namespaces, each with its own copy of /repo and /verif bind-mounted over the real paths (the checks are written
# against /repo and /verif); results in seeded/RESULTS-par.txt.  Scratch copies under /tmp/par are removed at the end.
set -u
W=${1:-3}
rm -rf /tmp/par; mkdir -p /tmp/par
ls -d /verif/seeded/C??-* | xargs -n1 basename | sort > /tmp/par/all.txt
for w in $(seq 1 $W); do
  mkdir -p /tmp/par/$w
  cp -a /repo /tmp/par/$w/repo
  rsync -a /verif/ /tmp/par/$w/verif/
  awk -v w=$w -v W=$W 'NR % W == w % W' /tmp/par/all.txt > /tmp/par/$w/seeds.txt
  cat > /tmp/par/$w/run.sh <<EOS
#!/bin/bash
mount --bind /tmp/par/$w/repo /repo || exit 3
mount --bind /tmp/par/$w/verif /verif || exit 3
cd /verif
: > /tmp/par/$w/results.txt
for s in \$(cat /tmp/par/$w/seeds.txt); do
  p=\$(python3 -c "import json;print(json.load(open('seeded/\$s/meta.json'))['breaks_property'])" 2>/dev/null || echo \${s%%-*})
  git -C /repo apply /verif/seeded/\$s/patch.diff || { echo "\$s \$p APPLY-FAILED" >> /tmp/par/$w/results.txt; continue; }
  out=\$(./check \$p 2>&1); rc=\$?
  v=\$(echo "\$out" | grep -E '^VIOLATION' | head -1)
  wh=\$(echo "\$out" | grep -E '"what"' | head -1 | cut -c1-260)
  echo "\$s \$p exit=\$rc \$v | \$wh" >> /tmp/par/$w/results.txt
  git -C /repo checkout -- .
done
echo done >> /tmp/par/$w/results.txt
EOS
  chmod +x /tmp/par/$w/run.sh
  unshare -m /tmp/par/$w/run.sh > /tmp/par/$w/log.txt 2>&1 &
done
wait
cat /tmp/par/*/results.txt | grep -v '^done' | sort > /verif/seeded/RESULTS-par.txt
echo done >> /verif/seeded/RESULTS-par.txt
rm -rf /tmp/par
