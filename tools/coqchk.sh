#!/bin/sh
# independent re-check of every compiled property file (and everything it depends on) with coqchk; prints the axioms
cd /verif/coq && ./regen.sh && make -j16 >/dev/null 2>&1
mods=$(ls Props/*.v | sed 's#Props/\(.*\)\.v#Truc.Props.\1#' | tr '\n' ' ')
coqchk -o -silent -Q Model Truc.Model -Q Proofs Truc.Proofs -Q Props Truc.Props -Q Current Truc.Current $mods
