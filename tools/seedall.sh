#!/bin/bash
# runs every seeded change against the check of the property it breaks; one line per seed in seeded/RESULTS.txt
cd /verif
: > seeded/RESULTS.txt
for d in seeded/*/; do
  s=$(basename $d)
  p=$(python3 -c "import json;print(json.load(open('$d/meta.json'))['breaks_property'])" 2>/dev/null || echo ${s%%-*})
  (cd /repo && git apply /verif/$d/patch.diff) || { echo "$s $p APPLY-FAILED" >> seeded/RESULTS.txt; continue; }
  out=$(./check $p 2>&1); rc=$?
  v=$(echo "$out" | grep -E '^VIOLATION' | head -1)
  w=$(echo "$out" | grep -E '"what"' | head -1 | cut -c1-260)
  echo "$s $p exit=$rc $v | $w" >> seeded/RESULTS.txt
  git -C /repo checkout -- .
done
echo done >> seeded/RESULTS.txt
