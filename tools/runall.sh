#!/bin/bash
# runs every claimed check (quick tier unless $1 given) on the current tree; one line per property in /verif/.cache/runall.txt
cd /verif
tier=${1:-quick}
: > .cache/runall-$tier.txt
for p in $(python3 -c "import json;print(' '.join(c['property_id'] for c in json.load(open('MANIFEST.json'))['checks']))"); do
  s=$(date +%s)
  out=$(./check $p --tier $tier 2>&1); rc=$?
  echo "$p exit=$rc $(( $(date +%s) - s ))s $(echo "$out" | grep -E '^(VIOLATION|KNOWN-FINDING)' | head -2 | tr '\n' ' ')" >> .cache/runall-$tier.txt
done
echo done >> .cache/runall-$tier.txt
