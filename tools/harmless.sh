#!/bin/bash
# usage: tools/harmless.sh <diff file> <property>...   - applies a behaviour-preserving refactoring to /repo, runs the checks, undoes it
cd /verif
d=$1; shift
git -C /repo apply $d || { echo "$d APPLY-FAILED"; exit 2; }
for p in "$@"; do
  out=$(./check $p 2>&1); rc=$?
  echo "$(basename $(dirname $d))/$(basename $d) $p exit=$rc $(echo "$out" | grep -E '^VIOLATION' | head -1) | $(echo "$out" | grep -E '"broken"' -A2 | head -3 | tr '\n' ' ' | cut -c1-300)"
done
git -C /repo checkout -- .
