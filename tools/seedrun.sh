#!/bin/bash
# seedrun.sh <seed name> <property>... : applies /verif/seeded/<seed>/patch.diff to /repo, runs the checks, undoes it
S=$1; shift
cd /repo && git apply /verif/seeded/$S/patch.diff || { echo "apply failed"; exit 2; }
cd /verif
for p in "$@"; do
  out=$(./check $p 2>&1); rc=$?
  echo "SEED $S check $p exit=$rc $(echo "$out" | grep -E '^VIOLATION' | head -1)"
  echo "$out" | grep -E '"what"|"history"' | head -2
done
git -C /repo checkout -- .
