#!/bin/bash
# usage: tools/seedrun.sh <seed-id> [property]   - applies one seeded change to /repo, runs the property's check, undoes it
cd /verif
s=$1; p=${2:-${s%%-*}}
git -C /repo apply /verif/seeded/$s/patch.diff || { echo "$s APPLY-FAILED"; exit 2; }
out=$(./check $p 2>&1); rc=$?
git -C /repo checkout -- .
echo "$s $p exit=$rc $(echo "$out" | grep -E '^VIOLATION' | head -1) | $(echo "$out" | grep -E '"what"' | head -1 | cut -c1-240)"
